"""C02 — generated parser and interpreting VM agree on every grammar and input (DESIGN.md section 4, C02).

Decided by structural induction over the grammar, given C03 (both back-ends drive the same ParserState):
generate_expr, generate_expr_atomic and Vm::parse_expr are structural recursions, so if every arm produces
the same combinator term, every grammar produces the same combinator tree.
  EXPR      per OptimizedExpr variant: generator template (non-atomic) == VM arm; atomic template == VM arm with
            implicit skips erased (laws L1-L3)
  RULE      per RuleType x {ordinary, WHITESPACE/COMMENT}: the wrapper chain of generate_rule == Vm::parse_rule
  BUILTINS  same built-in names and the same term per name in generate_builtin_rules and Vm::parse_rule
  RESOLVE   a name users may define (not a pest keyword) resolves to the user rule in both back-ends
  SKIP      generate_skip arms == Vm::skip arms
  ENTRY     both enter through pest::state
"""
import re
from .. import facts, hirq, synx, terms, traverse
from ..hirq import walk, kind, callee, where, peel
from ..terms import TemplateFront, HirFront, norm, law_l3, ctx_erase, show

LEVEL = "translation_validation"

# For Unicode property built-ins the two back-ends take different routes to the tables: generated code calls the function
# `pest::unicode::NAME`, the VM asks `unicode::by_name(NAME)`. That both give the same set is C16's agreement of the access
# paths (names x tables x lookup), re-run here.
DEPENDS = [
    ("C16", {"only_rules": ["NAMES", "LOOKUP", "ACCESS"],
             "why": "generated code and VM reach the Unicode tables through different access paths"}),
    ("C05", {"only_rules": ["RESTORE-LEAVES", "RESTORE-WRAP", "RESTORE-SHAPE"],
             "why": "the two back-ends spell repetition differently (the VM and the non-atomic generator run later "
                    "iterations inside `sequence`, the atomic generator emits a bare `repeat`): they leave the same "
                    "stack after an absorbed failure only because the shared optimizer wraps every fail-dirty child "
                    "in RestoreOnErr"}),
]
OEXPR = "pest_meta::optimizer::OptimizedExpr"
RTYPE = "pest_meta::ast::RuleType"

_TS = "proc_macro2::TokenStream"
_GEN_SIGS = {
    "generate_rule": (["pest_meta::optimizer::OptimizedRule"], _TS),
    "generate_skip": (["&[pest_meta::optimizer::OptimizedRule]"], _TS),
    "generate_patterns": (["&[pest_meta::optimizer::OptimizedRule]", "bool"], _TS),
    "generate_builtin_rules": ([], "alloc::vec::Vec<(&'static str, proc_macro2::TokenStream)>"),
    "generate_expr": (["pest_meta::optimizer::OptimizedExpr"], _TS),
    "generate_expr_atomic": (["pest_meta::optimizer::OptimizedExpr"], _TS),
}


def gen_fn(gen, role):
    """The generator function known on the pinned tree as `role`: by that name if it still exists, else the function of
    pest_generator::generator with the same signature (private names and modules may change); the two expression
    generators share a signature and are told apart by whether their templates mention the implicit `skip`."""
    if gen is None:
        return None
    b = gen.fn("pest_generator::generator::" + role)
    if b is not None or role not in _GEN_SIGS:
        return b
    ins, out = _GEN_SIGS[role]
    cands = [x for x in gen.bodies if str(x.get("path", "")).startswith("pest_generator::generator::") and not x.get("exp")
             and "::tests::" not in x["path"] and x.get("body") is not None and x.get("dk") in ("Fn", "AssocFn")
             and (x.get("inputs") or []) == ins and str(x.get("output")) == out]
    if role in ("generate_expr", "generate_expr_atomic"):
        def mentions_skip(x):
            return any(kind(y) == "Lit" and y.get("v") == "skip" for y in walk(x["body"]))
        cands = [x for x in cands if mentions_skip(x) == (role == "generate_expr")]
    return cands[0] if len(cands) == 1 else None


def gen_path(gen, role):
    b = gen_fn(gen, role)
    return b["path"] if b is not None else "pest_generator::generator::" + role


def gen_name(gen, role):
    return gen_path(gen, role).split("::")[-1]
GEN = "pest_generator::generator"
VM = "pest_vm::Vm"
GENFILE = "generator/src/generator.rs"

MANIFEST = {
    "technique": "translation validation of code-generation templates: quote! templates (parsed by a syn-based "
                 "extractor, interpolations resolved through the typed HIR of the enclosing arm) and the VM's "
                 "match arms (typed HIR) are both reduced to combinator terms and compared per grammar operator, "
                 "per rule modifier and per built-in, modulo three stated laws",
    "text": "Because the generator and the VM are structural recursions over OptimizedExpr, equality of the "
            "per-variant combinator terms (in non-atomic and in atomic context), of the per-modifier wrapper "
            "chains, of the built-in table, of the skip routine and of name resolution order implies that both "
            "back-ends build the same tree of ParserState calls for every grammar, hence (sharing ParserState "
            "and pest::state) return the same pairs and the same error for every input.",
    "note": "Assumes C03 (combinator contracts) and C01.SKIPGUARD (skip is the identity unless atomicity is "
            "NonAtomic). Laws used: L1 sequence in tail position of a sequence is redundant (spine flattening), "
            "L2 or_else is associative, L3 in atomic context repeat(e) == sequence(optional(e ~ repeat(sequence(e)))) "
            "for fail-clean e. Call-limit accounting (number of counted calls) is not compared.",
}


def run(rep, tier):
    rep.explanation = (
        "One 'program' is one (operator | modifier | built-in | skip case) in one context; a disagreement is a "
        "pair of non-equal normal forms. Templates are read from the source of generator.rs; their interpolated "
        "variables are resolved by name against the let-bindings and pattern bindings of the enclosing match arm "
        "in the typed HIR.")
    rep.configs = rep.cfgs(["default", "extras"])
    programs = 0
    disagreements = 0
    samples = []
    for cfg in rep.configs:
        f = facts.facts(cfg)
        feat = "grammar-extras" if cfg == "extras" else None
        gen = f.crate("pest_generator", want_feature=feat)
        vm = f.crate("pest_vm", want_feature=feat)
        meta = f.crate("pest_meta", want_feature=feat)
        sfx = "" if cfg == "default" else "@" + cfg
        if gen is None or vm is None or meta is None:
            r = rep.rule("C02.ANCHOR" + sfx, 0, "crates present")
            r.lost("pest_generator / pest_vm / pest_meta facts for " + cfg)
            continue
        macros = synx.extract([GENFILE, "generator/src/macros.rs"])
        ctx = Ctx(gen, vm, meta, macros, cfg)
        p, d, s = expr_rule(rep, ctx, sfx)
        programs += p
        disagreements += d
        samples += s
        p, d, s = rule_rule(rep, ctx, sfx)
        programs += p
        disagreements += d
        samples += s
        p, d, s = builtins_rule(rep, ctx, sfx)
        programs += p
        disagreements += d
        samples += s
        resolve_rule(rep, ctx, sfx)
        p, d, s = skip_rule(rep, ctx, sfx)
        programs += p
        disagreements += d
        samples += s
        entry_rule(rep, ctx, f, sfx)
        vmpure_rule(rep, ctx, sfx)
    rep.extra["programs"] = programs
    rep.extra["disagreements_checked"] = disagreements
    rep.extra["samples"] = samples[:24]


class Ctx:
    def __init__(self, gen, vm, meta, macros, cfg):
        self.gen, self.vm, self.meta, self.cfg = gen, vm, meta, cfg
        self.macros = macros
        self.quotes = {(m["line"], m["col"]): m for m in macros[GENFILE] if m["macro"] == "quote"}

    def template_at(self, node):
        """The quote! template whose expansion contains HIR node `node`."""
        cs = node.get("cs")
        if not cs:
            return None
        m = re.match(r"(.*?):(\d+):(\d+)-", cs)
        if not m or not m.group(1).endswith(GENFILE):
            return None
        return self.quotes.get((int(m.group(2)), int(m.group(3))))


# ------------------------------------------------------------------ generator arms -> terms

def quote_sites(ctx, body):
    """Distinct quote! invocations expanded inside `body` (not descending into nested matches on OptimizedExpr)."""
    seen = {}
    for n in walk(body):
        if n.get("exp") and "m:quote" in n["exp"]:
            t = ctx.template_at(n)
            if t is not None:
                seen[(t["line"], t["col"])] = t
    return [seen[k] for k in sorted(seen)]


def arm_env(ctx, fn, arm, ctxname, outer_env=None, variant=None):
    """name -> term/arg for the interpolations available in an arm."""
    env = dict(outer_env or {})
    binds = {}
    pat = arm["pat"]
    for p in walk(pat):
        if p.get("k") == "PTupleStruct" and p.get("path", "").startswith(OEXPR + "::"):
            for i, q in enumerate(p["pats"]):
                for (bid, nm) in hirq.pat_bindings(q):
                    binds[nm] = i
            break
    base = outer_env.get("__base__") if outer_env else None
    for nm, i in binds.items():
        env[nm] = ("child", (base + (i,)) if base is not None else i)
    genfns = {gen_path(ctx.gen, "generate_expr"): "na", gen_path(ctx.gen, "generate_expr_atomic"): "at"}
    # lets of the arm body, in order
    body = arm["body"]
    stmts = body.get("stmts", []) if kind(body) == "Block" else []
    spine_src = {}
    for st in stmts:
        if st.get("k") == "Let" and st["pat"].get("k") == "PBind" and st.get("init") is not None:
            ip = peel(st["init"])
            if kind(ip) == "Path" and ip.get("res") == "local" and isinstance(env.get(ip["name"]), tuple) \
                    and env[ip["name"]][0] == "child" and "OptimizedExpr" in st["pat"].get("ty", ""):
                spine_src[st["pat"]["name"]] = env[ip["name"]][1]
    for st in stmts:
        if st.get("k") != "Let" or st["pat"].get("k") != "PBind":
            continue
        nm = st["pat"]["name"]
        init = st.get("init")
        if init is None:
            continue
        init_p = peel(init)
        if kind(init_p) == "Call" and callee(init_p) in genfns:
            a = peel(init_p["args"][0])
            if kind(a) == "Path" and a.get("res") == "local" and isinstance(env.get(a["name"]), tuple) and env[a["name"]][0] == "child":
                env[nm] = ("rec", env[a["name"]][1], genfns[callee(init_p)])
                continue
        # `let mut current = *rhs;`
        if kind(init_p) == "Path" and init_p.get("res") == "local" and isinstance(env.get(init_p["name"]), tuple) \
                and env[init_p["name"]][0] == "child" and "OptimizedExpr" in st["pat"].get("ty", ""):
            continue
        # `let mut tail = vec![];`
        if "Vec<proc_macro2::TokenStream>" in st["pat"].get("ty", "") and kind(init_p) == "MethodCall" and init_p["m"] == "collect":
            # `let tail: Vec<_> = flatten(*rhs, split_seq).map(generate_expr).collect();` - the operands of the
            # right-nested chain, produced by a helper of the generator that is handed a splitter for the same variant
            maps, cur = [], init_p["recv"]
            while kind(peel(cur)) == "MethodCall":
                cur = peel(cur)
                if cur["m"] == "map" and cur["args"]:
                    a = peel(cur["args"][0])
                    if kind(a) == "Path" and a.get("res") == "def" and a.get("path") in genfns:
                        maps.append(genfns[a["path"]])
                cur = cur["recv"]
            root = peel(cur)
            src = None
            same_variant = False
            if kind(root) == "Call" and isinstance(callee(root), str) and callee(root).startswith(GEN + "::") and root["args"]:
                a0 = peel(root["args"][0])
                if kind(a0) == "Path" and a0.get("res") == "local" and isinstance(env.get(a0["name"]), tuple) and env[a0["name"]][0] == "child":
                    src = env[a0["name"]][1]
                for a in root["args"][1:]:
                    a = peel(a)
                    h = ctx.gen.fn(a["path"]) if kind(a) == "Path" and a.get("res") == "def" else None
                    if h is not None and any(x.get("k") == "PTupleStruct" and x.get("path") == (variant or "") for x in walk(h["body"])):
                        same_variant = True
            if len(maps) == 1 and src is not None and same_variant:
                env[nm] = ("spine", src, maps[0])
            else:
                env[nm] = ("unknown", "vec %s not understood" % nm)
            continue
        if "Vec<proc_macro2::TokenStream>" in st["pat"].get("ty", ""):
            pushes = [x for x in walk(body) if kind(x) == "MethodCall" and x["m"] == "push" and hirq.local_id(x["recv"]) == st["pat"]["id"]]
            ok = bool(pushes)
            fnames = set()
            for pu in pushes:
                a = peel(pu["args"][0])
                if not (kind(a) == "Call" and callee(a) in genfns):
                    ok = False
                else:
                    fnames.add(genfns[callee(a)])
            # the spine loop must destructure the same variant as the arm
            loops = [x for x in walk(body) if kind(x) == "Loop"]
            same_variant = False
            for lp in loops:
                for x in walk(lp):
                    if x.get("k") == "PTupleStruct" and x.get("path") == (variant or ""):
                        same_variant = True
            if ok and len(fnames) == 1 and len(spine_src) == 1 and same_variant:
                env[nm] = ("spine", next(iter(spine_src.values())), next(iter(fnames)))
            else:
                env[nm] = ("unknown", "vec %s not understood" % nm)
            continue
        # `let part = quote! { .. };` - a sub-template interpolated later
        sub = quote_sites(ctx, init)
        if len(sub) == 1 and sub[0]["template"]["form"] in ("expr", "block") and init.get("exp") and "m:quote" in init["exp"]:
            fr = TemplateFront({k: v for k, v in env.items() if k != "__base__"})
            tt = fr.term(sub[0]["template"]["ast"])
            if not fr.problems:
                env[nm] = tt
                continue
        # pure conversions / wrappers of a child: provenance = the child it mentions
        locs = [x for x in walk(init) if kind(x) == "Path" and x.get("res") == "local" and isinstance(env.get(x["name"]), tuple)
                and env[x["name"]][0] == "child"]
        kids = set(env[x["name"]][1] for x in locs)
        if len(kids) == 1:
            env[nm] = ("child", next(iter(kids)))
    return env


def gen_arm_terms(ctx, fnpath, ctxname):
    """variant key -> (term, template, problems) for one generator function."""
    fn = ctx.gen.fn(fnpath)
    if fn is None:
        return None
    ms = traverse.enum_matches(fn, OEXPR)
    if not ms:
        return None
    m = max(ms, key=lambda x: len(x["arms"]))
    out = {}

    def do_arm(arm, key, outer_env, variant):
        env = arm_env(ctx, fn, arm, ctxname, outer_env, variant)
        body = peel(arm["body"])
        inner = None
        # nested match on the child (NodeTag)
        cand = body
        if kind(cand) == "Block" and not cand.get("stmts") and cand.get("expr") is not None:
            cand = peel(cand["expr"])
        if kind(cand) == "Match" and "OptimizedExpr" in cand.get("sty", ""):
            inner = cand
        if inner is not None:
            scr = peel(inner["scrut"])
            base_child = None
            if kind(scr) == "Path" and isinstance(env.get(scr.get("name")), tuple) and env[scr["name"]][0] == "child":
                base_child = env[scr["name"]][1]
            for a2 in inner["arms"]:
                pv = hirq.pat_variants(a2["pat"])
                sub = pv[0].split("::")[-1] if pv else "_"
                e2 = dict(env)
                e2["__base__"] = (base_child,) if not isinstance(base_child, tuple) else base_child
                if not pv:
                    # catch-all binding: the name denotes the whole child again
                    for (bid, nm) in hirq.pat_bindings(a2["pat"]):
                        e2[nm] = ("child", base_child)
                    e2.pop("__base__")
                do_arm(a2, "%s/%s" % (key, sub), e2, pv[0] if pv else None)
            return
        ts = quote_sites(ctx, arm["body"])
        if len(ts) > 1:
            # sub-templates bound by `let x = quote!{..}` are interpolated into the arm's final template
            body = arm["body"]
            bound = set()
            for st in (body.get("stmts", []) if kind(body) == "Block" else []):
                if st.get("k") == "Let" and st.get("init") is not None:
                    for q in quote_sites(ctx, st["init"]):
                        bound.add((q["line"], q["col"]))
            ts = [q for q in ts if (q["line"], q["col"]) not in bound]
        if len(ts) != 1:
            out[key] = (None, None, ["%d quote! templates in arm (expected 1)" % len(ts)])
            return
        t = ts[0]
        if t["template"]["form"] not in ("expr", "block"):
            out[key] = (None, t, ["template not parseable as an expression"])
            return
        fr = TemplateFront({k: v for k, v in env.items() if k != "__base__"})
        term = fr.term(t["template"]["ast"])
        out[key] = (term, t, fr.problems)

    for arm in m["arms"]:
        for v in hirq.pat_variants(arm["pat"]):
            do_arm(arm, v.split("::")[-1], None, v)
    return out


def vm_arm_terms(ctx):
    fn = ctx.vm.fn(VM + "::parse_expr")
    if fn is None:
        return None
    ms = traverse.enum_matches(fn, OEXPR)
    if not ms:
        return None
    out = {}
    for arm in ms[0]["arms"]:
        for v in hirq.pat_variants(arm["pat"]):
            child_of = {}
            for p in walk(arm["pat"]):
                if p.get("k") == "PTupleStruct" and p.get("path") == v:
                    for i, q in enumerate(p["pats"]):
                        for (bid, nm) in hirq.pat_bindings(q):
                            child_of[nm] = i
            hf = HirFront(fn, child_of, rec_callees=[VM + "::parse_expr"], skip_callees=[VM + "::skip"],
                          rule_callees=[VM + "::parse_rule"], crate=ctx.vm)
            # lets inside the arm only
            hf.lets = hirq.lets(arm["body"])
            t = hf.term(arm["body"])
            out[v.split("::")[-1]] = (t, arm, hf.problems)
    return out


def subterms(t):
    if isinstance(t, tuple) and t:
        yield t
        for x in t:
            if isinstance(x, tuple):
                for y in subterms(x):
                    yield y


def rename_children(t, base):
    if not isinstance(t, tuple) or not t:
        return t
    if t[0] in ("rec", "spine") and not isinstance(t[1], tuple):
        return (t[0], base + (t[1],)) + tuple(t[2:])
    if t[0] == "child" and not isinstance(t[1], tuple):
        return ("child", base + (t[1],))
    return tuple(rename_children(x, base) if isinstance(x, tuple) else x for x in t)


def subst_rec(t, k, repl):
    if not isinstance(t, tuple) or not t:
        return t
    if t[0] == "rec" and t[1] == k:
        return repl
    return tuple(subst_rec(x, k, repl) if isinstance(x, tuple) else x for x in t)


def expr_rule(rep, ctx, sfx):
    nvar = 14 if not sfx else 19
    r = rep.rule("C02.EXPR" + sfx, nvar * 2,
                 "per OptimizedExpr variant and context: generator template term == VM arm term (atomic: VM term "
                 "with implicit skips erased, law L3 for repetition)")
    vm = vm_arm_terms(ctx)
    if vm is None:
        r.lost("Vm::parse_expr arms")
        return 0, 0, []
    programs = dis = 0
    samples = []
    for (fnpath, c) in ((gen_path(ctx.gen, "generate_expr"), "na"), (gen_path(ctx.gen, "generate_expr_atomic"), "at")):
        g = gen_arm_terms(ctx, fnpath, c)
        if g is None:
            r.lost(fnpath)
            continue
        for key in sorted(g):
            term, tmpl, problems = g[key]
            programs += 1
            ikey = "%s:%s" % (c, key)
            w = "%s:%s" % (GENFILE, tmpl["line"]) if tmpl else ""
            r.instance(ikey, w, show(norm(term)) if term else "?")
            if term is None or problems:
                r.violation(ikey + ":template", w, "generator template for %s (%s) not understood: %s" % (key, c, problems))
                continue
            top = key.split("/")[0]
            if top not in vm:
                r.violation(ikey + ":vm-arm", w, "the VM has no arm for %s" % top)
                continue
            vterm, varm, vprob = vm[top]
            if vprob:
                r.violation(ikey + ":vm", where(varm["body"]), "VM arm for %s not understood: %s" % (top, vprob))
                continue
            if "/" in key:
                sub = key.split("/")[1]
                if sub != "_" and sub in vm:
                    inner = rename_children(vm[sub][0], (0,))
                    vterm = subst_rec(vterm, 0, inner)
            wrongctx = [x for x in subterms(norm(term, spine_once=False)) if x and x[0] in ("rec", "spine") and x[2] != c]
            if wrongctx:
                dis += 1
                r.violation(ikey + ":context", w,
                            "the %s template for %s translates a sub-expression with the %s generator (%s): implicit "
                            "WHITESPACE/COMMENT skipping inside that sub-expression %s in generated code, while the VM "
                            "decides it from the dynamic atomicity"
                            % ("atomic" if c == "at" else "non-atomic", key,
                               "atomic (skip-free)" if c == "na" else "non-atomic", [show(x) for x in wrongctx],
                               "disappears" if c == "na" else "appears"))
            gt = ctx_erase(norm(term))
            vt = ctx_erase(norm(vterm, erase_skip=(c == "at")))
            laws = []
            if gt != vt and c == "at":
                v2 = law_l3(vt)
                if v2 == gt:
                    vt = v2
                    laws.append("L3")
            if len(samples) < 6:
                samples.append({"program": "%s in %s context%s" % (key, "atomic" if c == "at" else "non-atomic", sfx),
                                "generator": show(gt), "vm": show(vt), "laws": laws})
            if gt != vt:
                dis += 1
                r.violation(ikey, w,
                            "%s in %s context: generated code is `%s`, the VM executes `%s`: the two back-ends build "
                            "different combinator trees for every grammar using this operator"
                            % (key, "atomic" if c == "at" else "non-atomic", show(gt), show(vt)))
    return programs, dis, samples


# ------------------------------------------------------------------ RULE

def wrappers(t):
    """outer-to-inner list of wrapper combinators and the innermost body term."""
    out = []
    while isinstance(t, tuple) and t and t[0] == "comb" and t[1] in ("rule", "atomic"):
        out.append((t[1],) + tuple(a for a in t[2] if a[0] == "path"))
        t = t[3]
    return out, t


def specialise_arm(vfn, body, ty, ws):
    """The arm body with what is known for this (rule type, trivia?) folded in: conditions over bool locals that depend
    only on the rule's name / type are decided, and a closure kept in a local (`let body = move |state| { if wrap_atomic
    {..} else {..} }`) is put where it is applied or handed on.  Returns the node unchanged when there is nothing to do."""
    import copy
    lets = hirq.lets(vfn["body"])
    modes = hirq.binding_modes(vfn)
    closures = {lid: init for lid, (init, st) in lets.items() if init is not None and kind(peel(init)) == "Closure"}
    if not closures and not any(kind(x) == "If" for x in walk(body)):
        return body

    def evalb(c, depth=0):
        c = peel(c)
        k = kind(c)
        if depth > 6:
            return None
        if k == "Lit" and c.get("lk") == "bool":
            return bool(c.get("v"))
        if k == "Path" and c.get("res") == "local" and c["id"] in lets and not modes.get(c["id"]) and lets[c["id"]][0] is not None \
                and c.get("ty") == "bool":
            return evalb(lets[c["id"]][0], depth + 1)
        if k == "Unary" and c["op"] == "!":
            v = evalb(c["e"], depth + 1)
            return None if v is None else (not v)
        if k == "Binary" and c["op"] in ("||", "&&"):
            a, b = evalb(c["l"], depth + 1), evalb(c["r"], depth + 1)
            if c["op"] == "&&":
                if a is False or b is False:
                    return False
                return True if (a is True and b is True) else None
            if a is True or b is True:
                return True
            return False if (a is False and b is False) else None
        lits = set(x.get("v") for x in walk(c) if kind(x) in ("Lit", "PLit") and x.get("lk") == "str")
        if lits and lits <= {"WHITESPACE", "COMMENT"} and k == "Binary" and c["op"] in ("==", "!="):
            # one name comparison: for an ordinary rule false; for a trivia rule undecided alone, but the disjunction of
            # both names is what the code asks - handled by treating each as `ws` (true for at least one of the names)
            return ws if c["op"] == "==" else (not ws)
        if k == "Match" and RTYPE in str(c.get("sty") or peel(c["scrut"]).get("ty") or "") and any(
                "matches" in e_ for e_ in (c.get("exp") or [])):
            for arm in c["arms"]:
                vs = hirq.pat_variants(arm["pat"])
                if RTYPE + "::" + ty in vs or hirq.pat_is_catchall(arm["pat"]):
                    return hirq.lit_value(arm["body"]) is True
            return None
        if k == "Binary" and c["op"] in ("==", "!="):
            for y in (peel(c["l"]), peel(c["r"])):
                if kind(y) == "Path" and str(y.get("path", "")).startswith(RTYPE + "::"):
                    eq = y["path"].split("::")[-1] == ty
                    return eq if c["op"] == "==" else (not eq)
        return None

    def tr(x, depth=0):
        if depth > 40:
            return x
        if isinstance(x, list):
            return [tr(y, depth + 1) for y in x]
        if not isinstance(x, dict):
            return x
        k = x.get("k")
        if k == "If":
            v = evalb(x["cond"])
            if v is True:
                return tr(x["then"], depth + 1)
            if v is False and x.get("else") is not None:
                return tr(x["else"], depth + 1)
        if k == "Call":
            f = peel(x["f"])
            if kind(f) == "Path" and f.get("res") == "local" and f["id"] in closures:
                return tr(copy.deepcopy(peel(closures[f["id"]])["body"]), depth + 1)
        if k == "Path" and x.get("res") == "local" and x["id"] in closures:
            c2 = copy.deepcopy(peel(closures[x["id"]]))
            c2["body"] = tr(c2["body"], depth + 1)
            return c2
        out = {}
        for kk, vv in x.items():
            out[kk] = tr(vv, depth + 1) if isinstance(vv, (dict, list)) else vv
        return out
    return tr(body)


def vm_modifier_arms(vfn, variants):
    """{(variant, is_trivia): arm-body node} of Vm::parse_rule, found by evaluating its control structure for each rule
    type and for a WHITESPACE/COMMENT name vs an ordinary one - whatever the spelling: nested `if name.. { match ty }`,
    one `match (is_trivia, rule.ty)`, a bool local, guards."""
    lets = hirq.lets(vfn["body"])

    def name_test(c, ws):
        """Truth of a condition over the rule's name for a trivia rule (ws=True) or an ordinary one; None if c is not one."""
        c = peel(c)
        k = kind(c)
        if k == "Lit" and c.get("lk") == "bool":
            return bool(c.get("v"))
        if k == "Path" and c.get("res") == "local" and c["id"] in lets:
            return name_test(lets[c["id"]][0], ws)
        if k == "Unary" and c["op"] == "!":
            v = name_test(c["e"], ws)
            return None if v is None else (not v)
        if k == "Binary" and c["op"] in ("||", "&&"):
            a, b = name_test(c["l"], ws), name_test(c["r"], ws)
            if a is None or b is None:
                return None
            # for the ordinary rule both name comparisons are false; for a trivia rule at least one is true
            return (a or b) if c["op"] == "||" else (a and b)
        lits = set(x.get("v") for x in walk(c) if kind(x) in ("Lit", "PLit") and x.get("lk") == "str")
        if lits and lits <= {"WHITESPACE", "COMMENT"} and any(
                (kind(x) == "Field" and x["name"] == "name") or (kind(x) == "Path" and x.get("name") in ("name", "rule"))
                for x in walk(c)):
            if k == "Binary" and c["op"] == "!=":
                return not ws
            return ws   # `name == "WHITESPACE"`: true (for at least one of the two names) iff the rule is trivia
        return None

    def pat_ok(p, val):
        k = p.get("k")
        if k in ("PWild",) or (k == "PBind" and not p.get("sub")):
            return True
        if k == "PLit" and p.get("lk") == "bool":
            return bool(p.get("v")) == val
        if k == "POr":
            return any(pat_ok(q, val) for q in p["pats"])
        vs = hirq.pat_variants(p)
        if vs:
            return RTYPE + "::" + val in vs if isinstance(val, str) else False
        return False

    def sel(n, ty, ws, depth=0):
        n0 = n
        n = peel(n)
        k = kind(n)
        if depth > 12 or n is None:
            return None
        if k == "Block":
            # guard clauses first: `if !is_trivia { return match rule.ty { .. } }` decides the ordinary rules, the code
            # after it the trivia ones
            for s in n.get("stmts", []):
                if s.get("k") in ("Expr", "Semi") and kind(peel(s["e"])) == "If" and peel(s["e"]).get("else") is None:
                    gi = peel(s["e"])
                    if hirq.diverges(gi["then"]):
                        v = name_test(gi["cond"], ws)
                        if v is True:
                            return sel(gi["then"], ty, ws, depth + 1)
                        if v is None and any(kind(y) == "Match" and RTYPE in str(y.get("sty", "")) for y in walk(gi["then"])):
                            return None
            if n.get("expr") is not None:
                return sel(n["expr"], ty, ws, depth + 1)
            sts = [s for s in n.get("stmts", []) if s.get("k") in ("Expr", "Semi")]
            return sel(sts[-1]["e"], ty, ws, depth + 1) if sts else None
        if k == "Ret" and n.get("e") is not None:
            return sel(n["e"], ty, ws, depth + 1)
        if k == "If":
            c = peel(n["cond"])
            if kind(c) == "LetExpr" and any(kind(x) == "MethodCall" and x["m"] == "get" for x in walk(c["init"])):
                return sel(n["then"], ty, ws, depth + 1)      # the user's rule was found
            v = name_test(c, ws)
            if v is None:
                return None
            return sel(n["then"] if v else n.get("else"), ty, ws, depth + 1)
        if k == "Match":
            scr = peel(n["scrut"])
            if kind(scr) == "Tup":
                vals = []
                for e in scr["elems"]:
                    e = peel(e)
                    if RTYPE in str(e.get("ty", "")):
                        vals.append(ty)
                    else:
                        vals.append(name_test(e, ws))
                if any(v is None for v in vals):
                    return None
                for arm in n["arms"]:
                    p = arm["pat"]
                    if p.get("k") == "PTuple" and len(p["pats"]) == len(vals) and all(pat_ok(q, v) for q, v in zip(p["pats"], vals)):
                        if arm.get("guard") is not None:
                            g = name_test(arm["guard"], ws)
                            if g is None:
                                return None
                            if not g:
                                continue
                        return sel(arm["body"], ty, ws, depth + 1) if kind(peel(arm["body"])) in ("If", "Match") and (
                            RTYPE in str(peel(arm["body"]).get("sty", "")) or kind(peel(arm["body"])) == "If" and name_test(peel(arm["body"])["cond"], ws) is not None) else arm["body"]
                    if hirq.pat_is_catchall(p):
                        return arm["body"]
                return None
            if RTYPE in str(n.get("sty", "")) or RTYPE in str(scr.get("ty", "")):
                for arm in n["arms"]:
                    if pat_ok(arm["pat"], ty):
                        if arm.get("guard") is not None:
                            g = name_test(arm["guard"], ws)
                            if g is None:
                                return None
                            if not g:
                                continue
                        b = peel(arm["body"])
                        if kind(b) == "If" and name_test(b["cond"], ws) is not None:
                            return sel(b, ty, ws, depth + 1)
                        return arm["body"]
                return None
            return None
        return n0

    out = {}
    # start below the listener prologue: the `if let Some(rule) = self.rules.get(..)` statement or tail
    roots = [x for x in walk(vfn["body"]) if kind(x) == "If" and kind(peel(x["cond"])) == "LetExpr"
             and any(kind(y) == "MethodCall" and y["m"] == "get" and "HashMap" in str(y.get("rty", "")) for y in walk(x["cond"]))]
    if not roots:
        # `let Some(rule) = self.rules.get(rule) else { built-ins .. };` followed by the user-rule dispatch as the tail
        for blk in walk(vfn["body"]):
            if kind(blk) != "Block":
                continue
            for i, st in enumerate(blk.get("stmts", [])):
                if st.get("k") == "Let" and st.get("els") is not None and st.get("init") is not None and any(
                        kind(y) == "MethodCall" and y["m"] == "get" and "HashMap" in str(y.get("rty", "")) for y in walk(st["init"])):
                    roots = [{"k": "Block", "stmts": blk["stmts"][i + 1:], "expr": blk.get("expr"), "sp": blk.get("sp")}]
    if not roots:
        return out
    for ty in variants:
        for ws in (False, True):
            b = sel(roots[0], ty, ws)
            if b is not None:
                out[(ty, ws)] = b
    return out


def rule_rule(rep, ctx, sfx):
    r = rep.rule("C02.RULE" + sfx, 10,
                 "per RuleType x {ordinary, WHITESPACE/COMMENT}: wrapper chain (rule / atomic(kind), outer to "
                 "inner) of generate_rule == Vm::parse_rule")
    gfn = gen_fn(ctx.gen, "generate_rule")
    vfn = ctx.vm.fn(VM + "::parse_rule")
    if gfn is None or vfn is None:
        r.lost("generate_rule / Vm::parse_rule")
        return 0, 0, []
    adt = ctx.meta.adt(RTYPE)
    variants = [v["name"] for v in adt["variants"]]
    # --- generator: symbolic evaluation of the `let expr = if .. else if .. else ..`
    expr_let = None
    for st in gfn["body"].get("stmts", []):
        if st.get("k") == "Let" and st["pat"].get("k") == "PBind" and st["pat"]["name"] == "expr":
            expr_let = st
    tail = gfn["body"].get("expr")
    m = peel(tail) if tail else None
    if expr_let is None or kind(m) != "Match":
        r.lost("shape of generate_rule (let expr = ..; match rule.ty {..})")
        return 0, 0, []

    def eval_cond(c, ty, ws):
        c = peel(c)
        k = kind(c)
        if k == "Binary" and c["op"] == "||":
            a, b = eval_cond(c["l"], ty, ws), eval_cond(c["r"], ty, ws)
            return None if a is None or b is None else (a or b)
        if k == "Binary" and c["op"] == "&&":
            a, b = eval_cond(c["l"], ty, ws), eval_cond(c["r"], ty, ws)
            return None if a is None or b is None else (a and b)
        if k == "Binary" and c["op"] in ("==", "!="):
            l, rr = peel(c["l"]), peel(c["r"])
            val = None
            if kind(rr) == "Path" and rr.get("path", "").startswith(RTYPE + "::"):
                val = (ty == rr["path"].split("::")[-1])
            elif hirq.lit_value(rr) in ("WHITESPACE", "COMMENT") and kind(l) == "Field" and l["name"] == "name":
                val = (ws == hirq.lit_value(rr))
            if val is None:
                return None
            return val if c["op"] == "==" else (not val)
        if k == "MethodCall" and c.get("path") in ("core::cmp::PartialEq::eq", "core::cmp::PartialEq::ne"):
            rr = peel(c["args"][0])
            l = peel(c["recv"])
            val = None
            if kind(rr) == "Path" and rr.get("path", "").startswith(RTYPE + "::"):
                val = (ty == rr["path"].split("::")[-1])
            elif hirq.lit_value(rr) in ("WHITESPACE", "COMMENT"):
                val = (ws == hirq.lit_value(rr))
            if val is None:
                return None
            return val if c["path"].endswith("::eq") else (not val)
        return None

    genfns = {gen_path(ctx.gen, "generate_expr"): "na", gen_path(ctx.gen, "generate_expr_atomic"): "at"}

    def eval_expr_init(n, ty, ws, env):
        n = peel(n)
        k = kind(n)
        if k == "If":
            t = eval_cond(n["cond"], ty, ws)
            if t is None:
                return None
            return eval_expr_init(n["then"] if t else n["else"], ty, ws, env)
        if k == "Match" and RTYPE in (n.get("sty") or peel(n["scrut"]).get("ty") or ""):
            # `match rule.ty { A | B => .., C if <name test> => .., _ => .. }`: first arm whose pattern covers ty and
            # whose guard evaluates to true
            for arm in n["arms"]:
                vs = hirq.pat_variants(arm["pat"])
                if not (RTYPE + "::" + ty in vs or hirq.pat_is_catchall(arm["pat"])):
                    continue
                if arm.get("guard") is not None:
                    g = eval_cond(arm["guard"], ty, ws)
                    if g is None:
                        return None
                    if not g:
                        continue
                return eval_expr_init(arm["body"], ty, ws, env)
            return None
        if k == "Block":
            e2 = dict(env)
            for st in n.get("stmts", []):
                if st.get("k") == "Let" and st["pat"].get("k") == "PBind" and st.get("init") is not None:
                    v = eval_expr_init(st["init"], ty, ws, e2)
                    if v is not None:
                        e2[st["pat"]["name"]] = v
            if n.get("expr") is not None:
                return eval_expr_init(n["expr"], ty, ws, e2)
            # a block whose value is a quote! expansion
        if k == "Call" and callee(n) in genfns:
            return ("rec", "body", genfns[callee(n)])
        ts = quote_sites(ctx, n)
        if len(ts) == 1 and ts[0]["template"]["form"] in ("expr", "block"):
            fr = TemplateFront(env)
            t = fr.term(ts[0]["template"]["ast"])
            if not fr.problems:
                return t
        return None

    programs = dis = 0
    samples = []
    # --- VM arms (selected symbolically per rule type x trivia/ordinary)
    vm_terms = {}
    for (v, isws), body in vm_modifier_arms(vfn, variants).items():
        hf = HirFront(vfn, {}, rec_callees=[VM + "::parse_expr"], skip_callees=[VM + "::skip"],
                      rule_callees=[VM + "::parse_rule"])
        body = specialise_arm(vfn, body, v, isws)
        tm = hf.term(body)
        vm_terms[(v, isws)] = (tm, {"body": body}, hf.problems)
    for ws in (None, "WHITESPACE"):
        for ty in variants:
            programs += 1
            key = "%s:%s" % (ty, "WS/COMMENT" if ws else "ordinary")
            inner = eval_expr_init(expr_let["init"], ty, ws, {})
            arm = None
            for a in m["arms"]:
                if RTYPE + "::" + ty in hirq.pat_variants(a["pat"]):
                    arm = a
            if inner is None or arm is None:
                r.violation(key + ":generator", where(gfn["body"]), "generate_rule not understood for %s" % key)
                continue
            ts = quote_sites(ctx, arm["body"])
            if len(ts) != 1 or ts[0]["template"]["form"] != "fn":
                r.violation(key + ":template", where(arm["body"]), "rule template for %s not understood" % ty)
                continue
            fr = TemplateFront({"expr": inner, "name": ("rulename",)})
            gt = fr.term(ts[0]["template"]["ast"])
            if fr.problems:
                r.violation(key + ":template", where(arm["body"]), "rule template for %s: %s" % (ty, fr.problems))
                continue
            gw, gbody = wrappers(norm(gt))
            if (ty, bool(ws)) not in vm_terms:
                r.violation(key + ":vm", where(vfn["body"]), "the VM has no arm for %s" % key)
                continue
            vt, varm, vprob = vm_terms[(ty, bool(ws))]
            vw, vbody = wrappers(norm(vt))
            r.instance(key, where(arm["body"]), "generator %s + %s | vm %s + %s" % (gw, show(gbody), vw, show(vbody)))
            if len(samples) < 4:
                samples.append({"program": "rule modifier %s%s" % (key, sfx), "generator": str(gw), "vm": str(vw)})
            bad = None
            if vprob:
                bad = "VM arm not understood: %s" % vprob
            elif gw != vw:
                bad = "wrapper chains differ"
            elif gbody[0] != "rec" or vbody[0] != "rec":
                bad = "bodies are not plain translations of the rule expression (%s / %s)" % (show(gbody), show(vbody))
            elif gbody[2] == "at" and not any(w[0] == "atomic" and w[1:] and w[1][1] in ("Atomicity::Atomic", "Atomicity::CompoundAtomic") for w in gw):
                bad = "the generator uses the atomic (skip-free) templates outside an atomic wrapper"
            if bad:
                dis += 1
                r.violation(key, where(arm["body"]),
                            "%s: generator wraps the rule body as %s, the VM as %s (%s): e.g. whether a WHITESPACE "
                            "pair is emitted differs between the derived parser and the VM" % (key, gw, vw, bad))
    return programs, dis, samples


# ------------------------------------------------------------------ BUILTINS / RESOLVE

def vm_builtin_terms(ctx):
    fn = ctx.vm.fn(VM + "::parse_rule")
    out = {}
    order = []
    if fn is None:
        return None, None, None
    for mm in walk(fn["body"]):
        if kind(mm) == "Match" and mm.get("sty", "").endswith("str"):
            for arm in mm["arms"]:
                p = arm["pat"]
                if p.get("k") == "PLit" and p.get("lk") == "str":
                    hf = HirFront(fn, {}, rec_callees=[VM + "::parse_expr"], skip_callees=[VM + "::skip"],
                                  rule_callees=[VM + "::parse_rule"])
                    out[p["v"]] = (hf.term(arm["body"]), arm, hf.problems)
            return out, mm, fn
    return out, None, fn


def gen_builtin_terms(ctx):
    out = {}
    for m in ctx.macros[GENFILE]:
        if m["macro"] == "insert_builtin" and m.get("args") and len(m["args"]) == 3:
            name = m["args"][1].get("path")
            fr = TemplateFront({})
            t = fr.term(m["args"][2])
            out[name] = (t, m, fr.problems)
    return out


def builtins_rule(rep, ctx, sfx):
    r = rep.rule("C02.BUILTINS" + sfx, 19,
                 "every hard-wired built-in has the same combinator term in generate_builtin_rules and in "
                 "Vm::parse_rule, and the two name sets are equal")
    vb, mm, fn = vm_builtin_terms(ctx)
    gb = gen_builtin_terms(ctx)
    if vb is None or not gb:
        r.lost("built-in tables")
        return 0, 0, []
    programs = dis = 0
    samples = []
    for name in sorted(set(vb) | set(gb)):
        programs += 1
        if name not in vb:
            dis += 1
            r.violation(name, "%s:%s" % (GENFILE, gb[name][1]["line"]), "built-in %s exists only in the generator" % name)
            continue
        if name not in gb:
            dis += 1
            r.violation(name, where(vb[name][1]["body"]), "built-in %s exists only in the VM" % name)
            continue
        gt, gm, gp = gb[name]
        vt, va, vp = vb[name]
        g, v = norm(gt), norm(vt)
        # the generator names the EOI token Rule::EOI, the VM "EOI": same constant
        r.instance(name, where(va["body"]), show(v))
        if len(samples) < 3:
            samples.append({"program": "built-in " + name, "generator": show(g), "vm": show(v)})
        if gp or vp:
            r.violation(name + ":shape", where(va["body"]), "built-in %s not understood (%s %s)" % (name, gp, vp))
        elif g != v:
            dis += 1
            r.violation(name, where(va["body"]), "built-in %s: generated code is `%s`, the VM executes `%s`" % (name, show(g), show(v)))
    return programs, dis, samples


def resolve_rule(rep, ctx, sfx):
    r = rep.rule("C02.RESOLVE" + sfx, 8,
                 "name resolution: a name users may define (not in the validator's pest-keyword list) resolves to "
                 "the user rule in both back-ends; the VM may short-circuit only keywords before looking up user "
                 "rules; the generator emits built-ins only for names that are not defined")
    kw = ctx.meta.fn("pest_meta::validator::PEST_KEYWORDS")
    keywords = set()
    if kw is not None:
        for x in walk(kw["body"]):
            if kind(x) == "Array":
                vals = x.get("lits") or [hirq.lit_value(e) for e in x.get("elems", [])]
                keywords |= set(v for v in vals if isinstance(v, str))
    if not keywords:
        r.lost("validator::PEST_KEYWORDS")
        return
    vb, mm, fn = vm_builtin_terms(ctx)
    if mm is None:
        r.lost("string match in Vm::parse_rule")
        return
    # is the literal match evaluated before the user-rule lookup?
    hctx = hirq.Ctx(fn)
    lookups = [x for x in walk(fn["body"]) if kind(x) == "MethodCall" and x["m"] == "get" and "HashMap" in x.get("rty", "")]
    if not lookups:
        r.lost("user-rule lookup (self.rules.get) in Vm::parse_rule")
        return
    lookup = lookups[0]
    guarded_by_lookup_miss = False
    for g in hctx.guards(mm):
        if g[0] == "if" and g[2] is False and any(x is lookup for x in walk(g[1])):
            guarded_by_lookup_miss = True
    before = (not guarded_by_lookup_miss) and hirq.line(mm) < hirq.line(lookup)
    for name in sorted(vb):
        r.instance("vm:" + name, where(vb[name][1]["body"]), "keyword" if name in keywords else "user-definable")
        if before and name not in keywords:
            r.violation("vm:" + name, where(vb[name][1]["body"]),
                        "the VM answers %s from its hard-wired table before looking at user rules, but the validator "
                        "lets a grammar define a rule named %s and generated code then calls the user's rule: "
                        "`%s = { \"z\" }  r = { %s }` on \"z\" matches in the derived parser and fails in the VM"
                        % (name, name, name, name))
    # generator: built-ins are emitted for `defaults` only (called minus defined)
    g = ctx.gen.fn(GEN + "::generate")
    ok = False
    if g is not None:
        for x in walk(g["body"]):
            if kind(x) == "MethodCall" and x["m"] in ("contains", "contains_key") and "defaults" in hirq.expr_text(x):
                ok = True
    r.instance("generator:defaults", where(g["body"]) if g else "")
    if not ok:
        r.violation("generator:defaults", where(g["body"]) if g else "", "the generator no longer restricts emitted "
                    "built-ins to the names the grammar uses but does not define")


# ------------------------------------------------------------------ SKIP / ENTRY

def skip_rule(rep, ctx, sfx):
    r = rep.rule("C02.SKIP" + sfx, 4, "the four cases of generate_skip == the four cases of Vm::skip")
    gfn = gen_fn(ctx.gen, "generate_skip")
    vfn = ctx.vm.fn(VM + "::skip")
    if gfn is None or vfn is None:
        r.lost("generate_skip / Vm::skip")
        return 0, 0, []

    def arms_by_flags(fn):
        out = {}
        for mm in walk(fn["body"]):
            if kind(mm) == "Match" and kind(peel(mm["scrut"])) == "Tup":
                for arm in mm["arms"]:
                    p = arm["pat"]
                    if p.get("k") == "PTuple":
                        flags = tuple(q.get("v") for q in p["pats"] if q.get("k") == "PLit")
                        if len(flags) == 2:
                            out[flags] = arm
                return out, peel(mm["scrut"])
        return out, None

    ga, gscr = arms_by_flags(gfn)
    va, vscr = arms_by_flags(vfn)
    # the order of the scrutinee tuple: (whitespace, comment) in both
    def scr_order(scr, fn):
        names = []
        lets = hirq.lets(fn["body"])
        for e in scr["elems"]:
            e = peel(e)
            if kind(e) == "Path" and e.get("res") == "local" and e["id"] in lets:
                e = peel(lets[e["id"]][0])
            lits = [x.get("v") for x in walk(e) if kind(x) == "Lit" and x.get("lk") == "str"]
            if not lits and kind(e) == "Lit" and e.get("lk") == "bool" and kind(peel(scr["elems"][len(names)])) == "Path":
                # a flag found by a hand-written scan: `let mut whitespace = false; for rule in rules { match
                # rule.name.as_str() { "WHITESPACE" => whitespace = true, .. } }` - the name is the string pattern (or the
                # string compared with) that guards the assignment of `true`
                lid = peel(scr["elems"][len(names)])["id"]
                fctx = hirq.Ctx(fn)
                for a in walk(fn["body"]):
                    if kind(a) == "Assign" and hirq.local_id(a["l"]) == lid and hirq.lit_value(a["r"]) is True:
                        for g in fctx.guards(a):
                            if g[0] == "arm":
                                lits += [q.get("v") for q in walk(g[1]["arms"][g[2]]["pat"]) if q.get("k") == "PLit" and q.get("lk") == "str"]
                            elif g[0] in ("if", "guard"):
                                lits += [x.get("v") for x in walk(g[1]) if kind(x) == "Lit" and x.get("lk") == "str"]
            names.append(lits[0] if lits else "?")
        return names
    programs = dis = 0
    samples = []
    if va and (gscr is None or vscr is None or scr_order(gscr, gfn) != scr_order(vscr, vfn)):
        r.violation("flag-order", where(vfn["body"]), "the (WHITESPACE, COMMENT) flag tuples are built in different "
                    "orders (%s vs %s)" % (scr_order(gscr, gfn) if gscr else None, scr_order(vscr, vfn) if vscr else None))
    gmac = [m for m in ctx.macros[GENFILE] if m["macro"] == "generate_rule" and m["fn"] == gen_name(ctx.gen, "generate_skip")]
    evaluated = {}
    if not va and ga and gscr is not None and scr_order(gscr, gfn) != ["WHITESPACE", "COMMENT"]:
        r.violation("flag-order", where(gfn["body"]), "generate_skip builds its flag tuple as %s" % scr_order(gscr, gfn))
    if not va and ga:
        # Vm::skip written without the tuple match (guard clauses, flags in locals): evaluate its body for each
        # combination of the two flags, once in non-atomic and once in atomic mode
        hf0 = HirFront(vfn, {}, rec_callees=[], skip_callees=[], rule_callees=[VM + "::parse_rule"])
        for flags in ga:
            tn = vm_skip_eval(vfn, hf0, flags[0], flags[1], True)
            ta = vm_skip_eval(vfn, hf0, flags[0], flags[1], False)
            if tn is not None and ta is not None:
                evaluated[flags] = (norm(tn), norm(ta))
        if len(evaluated) == len(ga) and not hf0.problems:
            for flags in sorted(ga, key=str):
                programs += 1
                key = "ws=%s,comment=%s" % flags
                arm = ga[flags]
                lo, hi = arm_start_line(arm), arm_end_line(arm)
                ms = [m for m in gmac if lo <= m["line"] <= hi]
                if len(ms) != 1 or len(ms[0].get("args", [])) != 2:
                    r.violation(key + ":template", where(arm["body"]), "generate_rule!(skip, ..) invocation not found for this case")
                    continue
                fr = TemplateFront({})
                gt = simp_if(norm(fr.term(ms[0]["args"][1])))
                tn, ta = evaluated[flags]
                # the generated case is `if NonAtomic { T } else { Ok }` (or plain Ok): compare both modes
                if isinstance(gt, tuple) and gt and gt[0] == "if":
                    g_non, g_at = simp_if(gt[2]), simp_if(gt[3])
                else:
                    g_non = g_at = gt
                r.instance(key, where(vfn["body"]), show(tn))
                if fr.problems:
                    r.violation(key + ":shape", where(vfn["body"]), "skip case not understood (%s)" % fr.problems)
                elif simp_if(tn) != g_non or simp_if(ta) != g_at:
                    dis += 1
                    r.violation(key, where(vfn["body"]), "skip case %s: generated `%s`, VM `%s` (non-atomic) / `%s` (atomic)"
                                % (key, show(gt), show(tn), show(ta)))
            return programs, dis, samples
    for flags in sorted(set(ga) | set(va), key=str):
        programs += 1
        key = "ws=%s,comment=%s" % flags
        if flags not in ga or flags not in va:
            dis += 1
            r.violation(key, where(vfn["body"]), "case %s missing on one side" % key)
            continue
        # generator: the macro invocation inside this arm (by line range)
        arm = ga[flags]
        lo, hi = arm_start_line(arm), arm_end_line(arm)
        ms = [m for m in gmac if lo <= m["line"] <= hi]
        if len(ms) != 1 or len(ms[0].get("args", [])) != 2:
            r.violation(key + ":template", where(arm["body"]), "generate_rule!(skip, ..) invocation not found for this case")
            continue
        fr = TemplateFront({})
        gt = norm(fr.term(ms[0]["args"][1]))
        hf = HirFront(vfn, {}, rec_callees=[], skip_callees=[], rule_callees=[VM + "::parse_rule"])
        vt = norm(hoisted_guards(vfn, va[flags], hf, hf.term(va[flags]["body"])))
        gt, vt = simp_if(gt), simp_if(vt)
        r.instance(key, where(va[flags]["body"]), show(vt))
        if len(samples) < 2:
            samples.append({"program": "skip " + key, "generator": show(gt), "vm": show(vt)})
        if fr.problems or hf.problems:
            r.violation(key + ":shape", where(va[flags]["body"]), "skip case not understood (%s %s)" % (fr.problems, hf.problems))
        elif gt != vt:
            dis += 1
            r.violation(key, where(va[flags]["body"]), "skip case %s: generated `%s`, VM `%s`" % (key, show(gt), show(vt)))
    return programs, dis, samples


def vm_skip_eval(fn, hf, ws, comment, nonatomic):
    """The term Vm::skip evaluates to when the grammar has / has not WHITESPACE and COMMENT, in non-atomic or atomic
    mode: conditions over `contains_key("WHITESPACE" / "COMMENT")` and `atomicity() == NonAtomic` are decided, early
    `return`s taken.  None if the body cannot be followed."""
    env = {}

    def evalb(e):
        e = peel(e)
        k = kind(e)
        if k == "Lit" and isinstance(e.get("v"), bool):
            return e["v"]
        if k == "Path" and e.get("res") == "local":
            return env.get(e["id"])
        if k == "Unary" and e["op"] == "!":
            v = evalb(e["e"])
            return None if v is None else (not v)
        if k == "Binary" and e["op"] in ("&&", "||"):
            a, b = evalb(e["l"]), evalb(e["r"])
            if e["op"] == "&&":
                if a is False or b is False:
                    return False
                return True if (a is True and b is True) else None
            if a is True or b is True:
                return True
            return False if (a is False and b is False) else None
        if k == "MethodCall" and e["m"] == "contains_key" and e["args"]:
            lits = [x.get("v") for x in walk(e["args"][0]) if kind(x) == "Lit" and x.get("lk") == "str"]
            if lits == ["WHITESPACE"]:
                return ws
            if lits == ["COMMENT"]:
                return comment
            return None
        if k == "Binary" and e["op"] in ("==", "!="):
            sides = [peel(e["l"]), peel(e["r"])]
            atom = [s for s in sides if kind(s) == "Path" and str(s.get("path", "")).endswith("Atomicity::NonAtomic")]
            call = [s for s in sides if kind(s) == "MethodCall" and s["m"] == "atomicity"]
            if atom and call:
                return nonatomic if e["op"] == "==" else (not nonatomic)
            atom2 = [s for s in sides if kind(s) == "Path" and str(s.get("path", "")).endswith("Atomicity::Atomic")]
            if atom2 and call:
                return (not nonatomic) if e["op"] == "==" else nonatomic
        if k == "MethodCall" and e.get("path") in ("core::cmp::PartialEq::eq", "core::cmp::PartialEq::ne") and e["args"]:
            a0 = peel(e["args"][0])
            if kind(peel(e["recv"])) == "MethodCall" and peel(e["recv"])["m"] == "atomicity" and kind(a0) == "Path":
                is_non = str(a0.get("path", "")).endswith("Atomicity::NonAtomic")
                v = nonatomic if is_non else (not nonatomic)
                return v if e["path"].endswith("::eq") else (not v)
        return None

    def value(e):
        e0 = peel(e)
        k = kind(e0)
        if k == "If":
            c = evalb(e0["cond"])
            if c is None:
                return None
            br = e0["then"] if c else e0.get("else")
            return value(br) if br is not None else None
        if k == "Block":
            return block(e0)
        if k == "Match" and kind(peel(e0["scrut"])) == "Tup":
            vals = tuple(evalb(x) for x in peel(e0["scrut"])["elems"])
            if None in vals:
                return None
            for arm in e0["arms"]:
                p = arm["pat"]
                if p.get("k") == "PTuple" and tuple(q.get("v") for q in p["pats"] if q.get("k") == "PLit") == vals:
                    return value(arm["body"])
                if hirq.pat_is_catchall(p):
                    return value(arm["body"])
            return None
        if k == "Ret":
            return value(e0["e"]) if e0.get("e") is not None else None
        return hf.term(e0)

    def block(b):
        for st in b.get("stmts", []):
            sk = st.get("k")
            if sk == "Let":
                if st.get("init") is not None and st["pat"].get("k") == "PBind":
                    env[st["pat"]["id"]] = evalb(st["init"])
                continue
            if sk in ("Expr", "Semi"):
                e = peel(st["e"])
                if kind(e) == "If":
                    c = evalb(e["cond"])
                    if c is None:
                        return None
                    br = e["then"] if c else e.get("else")
                    if br is not None and hirq.diverges(br):
                        rets = [x for x in walk(br) if kind(x) == "Ret"]
                        return value(rets[0]) if len(rets) == 1 else None
                    continue
                if kind(e) == "Ret":
                    return value(e)
                return None
        return value(b["expr"]) if b.get("expr") is not None else None
    return block(fn["body"]) if kind(fn["body"]) == "Block" else None


def simp_if(t):
    """`if c {Ok} else {Ok}` is Ok (a hoisted guard wraps the empty case as well)."""
    if isinstance(t, tuple) and t and t[0] == "if" and simp_if(t[2]) == ("ok",) and simp_if(t[3]) == ("ok",):
        return ("ok",)
    return t


def hoisted_guards(fn, node, hf, t):
    """`if c { return Ok(state) }` statements that precede `node` in an enclosing block guard it: the code after
    them runs iff !c, otherwise the function is the identity. Returns t wrapped accordingly."""
    cx = hirq.Ctx(fn)
    for g in reversed(cx.guards(node)):
        if g[0] != "not":
            continue
        text = hf.cond(g[1])
        if " != " in text:
            text = text.replace(" != ", " == ", 1)
        elif " == " in text:
            text = text.replace(" == ", " != ", 1)
        else:
            text = "!(%s)" % text
        # what the early exit returns must be the unchanged state
        rets = [x for x in walk(g[3]["then"]) if kind(x) == "Ret"]
        if len(rets) != 1 or rets[0].get("e") is None or norm(hf.term(rets[0]["e"])) != ("ok",):
            hf.problems.append("early exit before the skip cases does not return the unchanged state")
            continue
        t = ("if", text, t, ("ok",))
    return t


def arm_start_line(arm):
    m = re.match(r".*?:(\d+):\d+-(\d+):\d+", arm.get("sp", ""))
    return int(m.group(1)) if m else 0


def arm_end_line(arm):
    sp = arm.get("sp", "")
    m = re.match(r".*?:(\d+):\d+-(\d+):\d+", sp)
    return int(m.group(2)) if m else hirq.line(arm["body"])


def vmpure_rule(rep, ctx, sfx):
    """The generated parser keeps no state between or across rule calls beyond the ParserState it is handed; the VM is
    its interpreter and must not either."""
    r = rep.rule("C02.VMPURE" + sfx, 1,
                 "Vm is immutable while it parses: none of its fields has an interior-mutable type (Atomic*, Cell, RefCell, "
                 "Mutex, RwLock, OnceCell) and its parsing methods take &self - a counter or cache kept in the Vm makes the "
                 "outcome depend on what was parsed before (a leaked depth counter starts refusing rules after enough "
                 "built-in calls), which generated code cannot reproduce")
    adt = ctx.vm.adt(VM)
    if adt is None:
        r.lost("struct pest_vm::Vm")
        return
    CELLS = ("core::sync::atomic::", "core::cell::", "std::sync::Mutex", "std::sync::RwLock", "std::sync::poison::",
             "std::sync::mutex::", "std::sync::rwlock::", "OnceCell", "OnceLock", "core::cell::once")
    for v in adt["variants"]:
        for f in v["fields"]:
            r.instance("field:" + f["name"], "", f["ty"][:60])
            if any(c_ in f["ty"] for c_ in CELLS) and "dyn " not in f["ty"].split("<")[0]:
                r.violation("field:" + f["name"], "", "Vm::%s has the interior-mutable type %s: parsing through &self can "
                            "change the Vm" % (f["name"], f["ty"][:60]))
    for b in ctx.vm.bodies:
        if b.get("impl_self") == VM and b["name"] in ("parse", "parse_rule", "parse_expr", "skip") and b.get("inputs"):
            r.instance("receiver:" + b["name"], where(b["body"]), str(b["inputs"][0])[:30])
            if str(b["inputs"][0]).startswith("&mut") or not str(b["inputs"][0]).startswith("&"):
                r.violation("receiver:" + b["name"], where(b["body"]), "Vm::%s takes %s" % (b["name"], str(b["inputs"][0])[:30]))


def entry_rule(rep, ctx, f, sfx):
    r = rep.rule("C02.ENTRY" + sfx, 4, "both back-ends run the start rule inside pest::state")
    vp = ctx.vm.fn(VM + "::parse")
    ok = vp is not None and any(callee(x) == "pest::parser_state::state" for x in walk(vp["body"]) if kind(x) == "Call")
    r.instance("vm", where(vp["body"]) if vp else "")
    if not ok:
        r.violation("vm", where(vp["body"]) if vp else "", "Vm::parse does not go through pest::state")
    # generator: the template of the Parser impl names ::pest::state
    raw = [m for m in ctx.macros[GENFILE] if m["macro"] == "quote" and m["fn"] == "generate" and "pest :: state" in m.get("raw", "")]
    r.instance("generator", "%s:%s" % (GENFILE, raw[0]["line"]) if raw else "")
    if not raw:
        r.violation("generator", GENFILE, "the generated Parser::parse does not call ::pest::state")
    # start-rule dispatch: every `Rule::x` arm calls the function of the same rule
    arms = [m for m in ctx.macros[GENFILE] if m["macro"] == "quote" and m["fn"] == gen_name(ctx.gen, "generate_patterns") and "=>" in m.get("raw", "")]
    r.instance("generator:dispatch", "%s:%s" % (GENFILE, arms[0]["line"]) if arms else "", "%d arm templates" % len(arms))
    if not arms:
        r.violation("generator:dispatch", GENFILE, "start-rule dispatch templates not found in generate_patterns")
    for m in arms:
        mm = re.search(r"Rule\s*::\s*(#\s*)?(\w+)\s*=>\s*rules\s*::\s*(#\s*)?(\w+)\s*\(\s*state\s*\)", m["raw"])
        if not mm or mm.group(2) != mm.group(4) or bool(mm.group(1)) != bool(mm.group(3)):
            r.violation("generator:dispatch", "%s:%s" % (GENFILE, m["line"]),
                        "the generated start-rule dispatch `%s` does not call the function of the rule it matches: "
                        "parsing from that rule runs another rule in the derived parser, the VM runs the named one"
                        % m["raw"].strip()[:80])
    vr = ctx.vm.fn(VM + "::parse")
    if vr is not None:
        ok2 = False
        for x in walk(vr["body"]):
            if kind(x) == "MethodCall" and x.get("path") == VM + "::parse_rule":
                a = peel(x["args"][0])
                ok2 = kind(a) == "Path" and a.get("res") == "local" and a["name"] == "rule"
        r.instance("vm:dispatch", where(vr["body"]))
        if not ok2:
            r.violation("vm:dispatch", where(vr["body"]), "Vm::parse does not start from the rule it was given")
        # ... on every path: name resolution (grammar rules first, then built-ins) is parse_rule's business; an exit of
        # Vm::parse that never reaches pest::state answers for names parse_rule would have resolved (e.g. `EOI`, which
        # the generated parsers accept as a start rule)
        from ..hirq import PathEnum as _PE, exits as _exits
        r.instance("vm:every-path", where(vr["body"]))
        for (ev, out) in _exits(_PE(vr, inline_closures=False).paths()):
            if not any(e.kind == "call" and callee(e.node) == "pest::parser_state::state" for e in ev):
                r.violation("vm:every-path", where(vr["body"]),
                            "a path of Vm::parse returns without running pest::state: it decides about the start rule "
                            "before parse_rule can resolve it (a built-in such as EOI is a valid start rule of the "
                            "generated parser)")
                break
