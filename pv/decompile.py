"""Decompiles the combinator terms of an expanded #[derive(Parser)] back to a PEG in pestgram's AST form,
so that grammar-level analyses can be run on what the reader + optimizer + generator actually emitted."""
from . import terms
from .terms import HirFront, norm

VIS = "::rules::visible::"
HID = "::rules::hidden::"
BUILTIN_FNS = {"ANY", "SOI", "EOI", "PEEK", "PEEK_ALL", "POP", "POP_ALL", "DROP", "ASCII_DIGIT", "ASCII_NONZERO_DIGIT",
               "ASCII_BIN_DIGIT", "ASCII_OCT_DIGIT", "ASCII_HEX_DIGIT", "ASCII_ALPHA_LOWER", "ASCII_ALPHA_UPPER",
               "ASCII_ALPHA", "ASCII_ALPHANUMERIC", "ASCII", "NEWLINE"}


class NotUnderstood(Exception):
    pass


def rule_terms(crate, parser_marker):
    """name -> normalised term of every rules::visible::* function of the derived parser whose def-path
    contains parser_marker; plus the hidden skip under '__skip__'."""
    out = {}
    for b in crate.bodies:
        if parser_marker not in b["path"] or b["dk"] != "Fn":
            continue
        if VIS in b["path"] or HID in b["path"]:
            hf = HirFront(b, {}, rule_fn_prefix=VIS)
            t = norm(hf.term(b["body"]))
            if hf.problems:
                raise NotUnderstood("%s: %s" % (b["path"], hf.problems[:2]))
            out["__skip__" if HID in b["path"] else b["name"]] = t
    return out


def strip_skip(items, atomic):
    out = []
    for i, x in enumerate(items):
        if x == ("skip",):
            if atomic:
                raise NotUnderstood("implicit skip inside an atomic rule")
            if i == 0 or i == len(items) - 1 or items[i - 1] == ("skip",):
                # leading skip is legal inside a repetition iteration (handled by the caller)
                raise NotUnderstood("skip not between two elements")
            continue
        out.append(x)
    return out


def expr(t, atomic):
    k = t[0]
    if k == "prim":
        name, args = t[1], t[2]
        if name == "match_string" and args and args[0][0] == "lit":
            return ("str", args[0][1])
        if name == "match_insensitive" and args and args[0][0] == "lit":
            return ("insens", args[0][1])
        if name == "match_range" and args and args[0][0] == "range":
            return ("range", args[0][1][1], args[0][2][1])
        if name == "skip_until" and args and args[0][0] == "lit":
            alts = [("str", s) for s in args[0][1]]
            return ("rep", ("seq", [("neg", ("choice", alts) if len(alts) > 1 else alts[0]), ("ident", "ANY")]))
        raise NotUnderstood("primitive %s" % name)
    if k == "call":
        if t[1][0] == "lit":
            return ("ident", t[1][1])
        raise NotUnderstood("call of a computed rule")
    if k == "then":
        items = strip_skip(list(t[1]), atomic)
        conv = [expr(x, atomic) for x in items]
        flat = []
        for c in conv:
            if c[0] == "seq":
                flat.extend(c[1])
            else:
                flat.append(c)
        return ("seq", flat) if len(flat) > 1 else flat[0]
    if k == "else":
        conv = [expr(x, atomic) for x in t[1]]
        flat = []
        for c in conv:
            if c[0] == "choice":
                flat.extend(c[1])
            else:
                flat.append(c)
        return ("choice", flat)
    if k == "comb":
        name, args, body = t[1], t[2], t[3]
        if name == "sequence":
            # repetition: sequence(optional(X ~> repeat(sequence(skip ~> X))))
            if body[0] == "comb" and body[1] == "optional":
                th = body[3]
                if th[0] == "then" and len(th[1]) == 2 and th[1][1][0] == "comb" and th[1][1][1] == "repeat":
                    x = th[1][0]
                    it = th[1][1][3]
                    if it[0] == "comb" and it[1] == "sequence":
                        inner = it[3]
                        want = ("then", (("skip",), x)) if not atomic else x
                        if norm(inner) == norm(want):
                            return ("rep", expr(x, atomic))
            return expr(body, atomic)
        if name == "optional":
            return ("opt", expr(body, atomic))
        if name == "repeat":
            # `repeat(sequence(skip ~> X))` only occurs inside the repetition pattern above
            return ("rep", expr(body, atomic))
        if name == "lookahead":
            pos = args and args[0] == ("lit", True)
            return ("pos" if pos else "neg", expr(body, atomic))
        if name == "stack_push":
            return ("push", expr(body, atomic))
        if name == "restore_on_err":
            return expr(body, atomic)
        raise NotUnderstood("combinator %s inside an expression" % name)
    if k == "ok":
        return ("str", "")
    raise NotUnderstood("term %s" % (k,))


def grammar(rule_terms_dict):
    """name -> (modifier, expr) in pestgram form, for the user rules of a derived parser."""
    out = {}
    for name, t in rule_terms_dict.items():
        if name == "__skip__" or name in BUILTIN_FNS:
            continue
        wrappers = []
        body = t
        while body[0] == "comb" and body[1] in ("rule", "atomic"):
            wrappers.append((body[1],) + tuple(a[1].split("::")[-1] for a in body[2] if a[0] == "path" and body[1] == "atomic"))
            body = body[3]
        special = name in ("WHITESPACE", "COMMENT")
        w = list(wrappers)
        if special and w and w[-1] == ("atomic", "Atomic") and w != [("rule",), ("atomic", "Atomic")]:
            w = w[:-1]
        mods = {(): "_", (("rule",),): "", (("rule",), ("atomic", "Atomic")): "@",
                (("atomic", "CompoundAtomic"), ("rule",)): "$", (("atomic", "NonAtomic"), ("rule",)): "!"}
        key = tuple(w)
        if special and wrappers == [("atomic", "Atomic")]:
            mod = "_"
        elif key in mods:
            mod = mods[key]
        else:
            raise NotUnderstood("wrapper chain %s of rule %s" % (wrappers, name))
        atomic = any(x[0] == "atomic" and x[1:] and x[1] in ("Atomic", "CompoundAtomic") for x in wrappers)
        out[name] = (mod, expr(body, atomic))
    return out
